package main

import (
	"fmt"
	"math/big"
	"math/rand"
	"net/http/httptest"
	"os"
	"sort"
	"strings"

	"ipamverif/harness/internal/canon"

	"github.com/prometheus/client_golang/prometheus"
	"github.com/prometheus/client_golang/prometheus/promhttp"
	dto "github.com/prometheus/client_model/go"
	netutils "k8s.io/utils/net"
	cidrset "sigs.k8s.io/node-ipam-controller/pkg/controller/ipam/multicidrset"
)

const (
	mAllocs   = "node_ipam_controller_multicidrset_cidrs_allocations_total"
	mReleases = "node_ipam_controller_multicidrset_cidrs_releases_total"
	mMax      = "node_ipam_controller_multicirdset_max_cidrs"
	mUsage    = "node_ipam_controller_multicidrset_usage_cidrs"
)

// metric reads one series of the default gatherer; ok=false when absent.
func metric(name, label string) (float64, bool) {
	mfs, err := prometheus.DefaultGatherer.Gather()
	if err != nil {
		return 0, false
	}
	for _, mf := range mfs {
		if mf.GetName() != name {
			continue
		}
		for _, m := range mf.GetMetric() {
			for _, lp := range m.GetLabel() {
				if lp.GetName() == "clusterCIDR" && lp.GetValue() == label {
					switch mf.GetType() {
					case dto.MetricType_COUNTER:
						return m.GetCounter().GetValue(), true
					case dto.MetricType_GAUGE:
						return m.GetGauge().GetValue(), true
					}
				}
			}
		}
	}
	return 0, false
}

// poolUnderTest wraps a real pool with what the harness needs to print its state.
type poolUnderTest struct {
	s          *cidrset.MultiCIDRSet
	r          canon.Cidr
	n          int
	baseAllocs float64
	baseRel    float64
	touched    bool
}

func wrapPool(s *cidrset.MultiCIDRSet, r canon.Cidr, n int) *poolUnderTest {
	p := &poolUnderTest{s: s, r: r, n: n}
	p.baseAllocs, p.baseRel, _, _ = cidrset.VerifMetricValues(s.Label)
	return p
}

// keyIndex maps a key of the allocation map to a block number, independently of the code under test.
func (p *poolUnderTest) keyIndex(key string) string {
	c, ok := parseTok(key)
	if !ok || c.Fam != p.r.Fam || c.Len != p.n {
		return "?" + key
	}
	d := new(big.Int).Sub(c.Addr, p.r.Addr)
	if d.Sign() < 0 {
		return "?" + key
	}
	bs := pow2(p.r.W() - p.n)
	q, m := new(big.Int).DivMod(d, bs, new(big.Int))
	if m.Sign() != 0 {
		return "?" + key
	}
	return q.String()
}

func (p *poolUnderTest) state() string {
	count, cursor, _, keys := p.s.VerifState()
	idx := make([]int, 0, len(keys))
	var bad []string
	for _, k := range keys {
		s := p.keyIndex(k)
		var i int
		if _, err := fmt.Sscanf(s, "%d", &i); err != nil || strings.HasPrefix(s, "?") {
			bad = append(bad, s)
			continue
		}
		idx = append(idx, i)
	}
	sort.Ints(idx)
	parts := make([]string, 0, len(idx)+len(bad))
	for _, i := range idx {
		parts = append(parts, fmt.Sprint(i))
	}
	parts = append(parts, bad...)
	al, rl, mx, us := cidrset.VerifMetricValues(p.s.Label)
	okU := true
	usage := "0"
	if p.touched {
		// the gauge must be exactly float64(k)/float64(Max) for the k it stands for
		k := int(us*float64(p.s.MaxCIDRs) + 0.5)
		if !okU || float64(k)/float64(p.s.MaxCIDRs) != us {
			usage = fmt.Sprintf("BAD(%v)", us)
		} else {
			usage = fmt.Sprint(k)
		}
	}
	return fmt.Sprintf("st count=%d cursor=%d used=[%s] allocs=%d releases=%d max=%d usage=%s",
		count, cursor, strings.Join(parts, ","), int(al-p.baseAllocs), int(rl-p.baseRel), int(mx), usage)
}

func parseTok(s string) (canon.Cidr, bool) {
	_, n, err := netutils.ParseCIDRSloppy(s)
	if err != nil {
		return canon.Cidr{}, false
	}
	return canon.FromIPNet(n)
}

// apply runs one op line on the real pool and returns the observation.
func (p *poolUnderTest) apply(op string) (obs string) {
	defer func() {
		if r := recover(); r != nil {
			obs = fmt.Sprintf("panic %v", r)
		}
	}()
	f := strings.Fields(op)
	switch f[0] {
	case "occ", "rel":
		c, ok := tokToCidr(f[1])
		if !ok {
			return "bad-op"
		}
		var err error
		if f[0] == "occ" {
			err = p.s.Occupy(c.IPNet())
		} else {
			err = p.s.Release(c.IPNet())
		}
		if err != nil {
			return f[0] + " err " + p.state()
		}
		p.touched = true
		return f[0] + " ok " + p.state()
	case "next":
		blk, skipped, err := p.s.NextCandidate()
		if err != nil {
			return "next err " + p.state()
		}
		return fmt.Sprintf("next %s %d %s", canon.TokNet(blk), skipped, p.state())
	case "be":
		c, ok := tokToCidr(f[1])
		if !ok {
			return "bad-op"
		}
		return beObs(p.s, c)
	case "index":
		var fam int
		fmt.Sscanf(f[1], "%d", &fam)
		a, ok := new(big.Int).SetString(f[2], 16)
		if !ok {
			return "bad-op"
		}
		return idxObs(p.s, fam, a)
	case "block":
		var i int
		fmt.Sscanf(f[1], "%d", &i)
		blk, err := p.s.VerifIndexToCIDRBlock(i)
		if err != nil {
			return "blk err"
		}
		return "blk " + canon.TokNet(blk)
	}
	return "bad-op"
}

// tokToCidr parses `4:a000100/28`.
func tokToCidr(t string) (canon.Cidr, bool) {
	var fam, l int
	var hex string
	t2 := strings.NewReplacer(":", " ", "/", " ").Replace(t)
	if _, err := fmt.Sscanf(t2, "%d %s %d", &fam, &hex, &l); err != nil {
		return canon.Cidr{}, false
	}
	a, ok := new(big.Int).SetString(hex, 16)
	if !ok {
		return canon.Cidr{}, false
	}
	return canon.Cidr{Fam: fam, Addr: a, Len: l}, true
}

// argShapes proposes CIDR arguments of every shape relative to the pool.
func argShapes(rng *rand.Rand, r canon.Cidr, n int) []canon.Cidr {
	w := r.W()
	maxv := pow2(n - r.Len)
	bs := pow2(w - n)
	ri := func() *big.Int { return new(big.Int).Rand(rng, maxv) }
	blockAt := func(i *big.Int) *big.Int { return new(big.Int).Add(r.Addr, new(big.Int).Mul(i, bs)) }
	var out []canon.Cidr
	i := ri()
	out = append(out, canon.Mk(r.Fam, blockAt(i), n)) // exact block
	if n < w {
		off := new(big.Int).Rand(rng, bs)
		out = append(out, canon.Mk(r.Fam, new(big.Int).Add(blockAt(ri()), off), n+1+rng.Intn(w-n))) // sub-block
	}
	if n > r.Len {
		out = append(out, canon.Mk(r.Fam, blockAt(ri()), r.Len+rng.Intn(n-r.Len+1))) // aligned multi-block
	}
	out = append(out, r) // whole range
	if r.Len > 0 {
		out = append(out, canon.Mk(r.Fam, r.Addr, rng.Intn(r.Len))) // super-range
		// outside: sibling of the range
		sib := new(big.Int).Xor(r.Addr, pow2(w-r.Len))
		out = append(out, canon.Mk(r.Fam, sib, r.Len+rng.Intn(w-r.Len+1)))
		// adjacent below/above
		above := new(big.Int).Add(r.Addr, pow2(w-r.Len))
		if above.Cmp(pow2(w)) < 0 {
			out = append(out, canon.Mk(r.Fam, above, n))
		}
	}
	out = append(out, canon.Mk(10-r.Fam, randBits(rng, 160-w), rng.Intn(161-w))) // other family
	return out
}

func randomPoolGeo(rng *rand.Rand, serial int) (canon.Cidr, int) {
	fam := 4
	if rng.Intn(2) == 0 {
		fam = 6
	}
	w := 32
	if fam == 6 {
		w = 128
	}
	// capacity 1..64 mostly, sometimes up to 1024
	bitsN := rng.Intn(7)
	if rng.Intn(10) == 0 {
		bitsN = 7 + rng.Intn(4)
	}
	minC := 12 // leaves room for a serial number in the base → unique labels
	c := minC + rng.Intn(w-bitsN-minC+1)
	n := c + bitsN
	base := randBits(rng, w)
	// put the serial number in the top 12 bits for label uniqueness
	base.And(base, new(big.Int).Sub(pow2(w-12), big.NewInt(1)))
	base.Or(base, new(big.Int).Lsh(big.NewInt(int64(serial%4096)), uint(w-12)))
	return canon.Mk(fam, base, c), w - n
}

func runPool(o *Out, rng *rand.Rand, thorough bool, replay string) {
	if replay != "" {
		replayPool(o, replay)
		return
	}
	pools := 600
	opsPer := 40
	if thorough {
		pools = 4000
		opsPer = 80
	}
	lastLabel := ""
	for pi := 0; pi < pools; pi++ {
		r, hb := randomPoolGeo(rng, pi)
		n := r.W() - hb
		s := newPool(o, r, hb)
		if s == nil {
			o.Count("pool-rejected-unexpectedly")
			continue
		}
		p := wrapPool(s, r, n)
		lastLabel = s.Label
		var sig strings.Builder
		fmt.Fprintf(&sig, "%s/%d:", r.Tok(), hb)
		trans := 0
		for k := 0; k < opsPer; k++ {
			var op string
			switch x := rng.Intn(10); {
			case x < 4:
				sh := argShapes(rng, r, n)
				op = "occ " + sh[rng.Intn(len(sh))].Tok()
			case x < 7:
				sh := argShapes(rng, r, n)
				op = "rel " + sh[rng.Intn(len(sh))].Tok()
			default:
				op = "next"
				// mimic the allocator: usually occupy what was proposed
			}
			obs := p.apply(op)
			o.Emit(op, obs)
			if ff := strings.Fields(obs); ff[1] == "ok" || ff[1] == "err" {
				o.Count(ff[0] + "-" + ff[1])
			} else {
				o.Count(ff[0] + "-ok")
			}
			sig.WriteString(op + ";")
			if strings.Contains(obs, " ok ") {
				trans++
			}
			if op == "next" && strings.HasPrefix(obs, "next ") && !strings.HasPrefix(obs, "next err") && rng.Intn(3) > 0 {
				op2 := "occ " + strings.Fields(obs)[1]
				o.Emit(op2, p.apply(op2))
				sig.WriteString(op2 + ";")
			}
		}
		o.Case(sig.String(), trans >= 2)
		if pi%100 == 0 {
			o.Sample(sig.String())
		}
	}
	metricsEndpoint(o, lastLabel)
	if thorough {
		exhaustiveSmall(o, rng)
	}
}

// metricsEndpoint serves promhttp.Handler() (what /metrics is bound to) once and checks the four series names appear.
func metricsEndpoint(o *Out, label string) {
	srv := httptest.NewServer(promhttp.Handler())
	defer srv.Close()
	resp, err := srv.Client().Get(srv.URL)
	if err != nil {
		o.Emit("# endpoint", "endpoint err")
		return
	}
	defer resp.Body.Close()
	buf := new(strings.Builder)
	b := make([]byte, 1<<16)
	for {
		n, e := resp.Body.Read(b)
		buf.Write(b[:n])
		if e != nil {
			break
		}
	}
	body := buf.String()
	missing := []string{}
	for _, n := range []string{mAllocs, mReleases, mMax, mUsage} {
		if !strings.Contains(body, n+"{") {
			missing = append(missing, n)
		}
	}
	o.Extra["metrics_endpoint_missing_series"] = missing
	// the gathered values of one label agree with the vectors the pool writes
	al, rl, mx, us := cidrset.VerifMetricValues(label)
	g1, _ := metric(mAllocs, label)
	g2, _ := metric(mReleases, label)
	g3, _ := metric(mMax, label)
	g4, _ := metric(mUsage, label)
	agree := al == g1 && rl == g2 && mx == g3 && us == g4
	o.Extra["metrics_gatherer_agrees"] = agree
	if len(missing) > 0 || !agree {
		o.Emit("# endpoint", fmt.Sprintf("endpoint BAD missing=%v gathererAgrees=%v", missing, agree))
	}
	o.Extra["metrics_endpoint_bytes"] = len(body)
}

// exhaustiveSmall explores every reachable (used-set, cursor) state of pools with capacity 1, 2, 4, 8
// and applies every operation shape in each.
func exhaustiveSmall(o *Out, rng *rand.Rand) {
	serial := 5000
	for _, capBits := range []int{0, 1, 2, 3} {
		for _, fam := range []int{4, 6} {
			w := 32
			if fam == 6 {
				w = 128
			}
			c := w - 8 - capBits
			if fam == 6 && capBits == 3 {
				c = 61 // straddling geometry: c < 64 < n
			}
			n := c + capBits
			base := randBits(rng, w)
			r := canon.Mk(fam, base, c)
			hb := w - n
			// operation alphabet for this pool
			bs := pow2(w - n)
			var alphabet []string
			maxN := 1 << capBits
			for i := 0; i < maxN; i++ {
				b := new(big.Int).Add(r.Addr, new(big.Int).Mul(big.NewInt(int64(i)), bs))
				alphabet = append(alphabet, "occ "+canon.Mk(fam, b, n).Tok(), "rel "+canon.Mk(fam, b, n).Tok())
				alphabet = append(alphabet, "occ "+canon.Mk(fam, new(big.Int).Add(b, big.NewInt(1)), w).Tok())
			}
			for l := c; l < n; l++ {
				alphabet = append(alphabet, "occ "+canon.Mk(fam, r.Addr, l).Tok(), "rel "+canon.Mk(fam, r.Addr, l).Tok())
				half := new(big.Int).Add(r.Addr, pow2(w-l-1))
				alphabet = append(alphabet, "occ "+canon.Mk(fam, half, l+1).Tok(), "rel "+canon.Mk(fam, half, l+1).Tok())
			}
			alphabet = append(alphabet, "occ "+canon.Mk(fam, r.Addr, c-1).Tok(), "rel "+canon.Mk(fam, r.Addr, c-1).Tok())
			sib := new(big.Int).Xor(r.Addr, pow2(w-c))
			alphabet = append(alphabet, "occ "+canon.Mk(fam, sib, n).Tok(), "rel "+canon.Mk(fam, sib, c).Tok())
			alphabet = append(alphabet, "next")
			seen := map[string]bool{}
			queue := [][]string{{}}
			states, transitions := 0, 0
			for len(queue) > 0 {
				path := queue[0]
				queue = queue[1:]
				// replay silently to learn the state
				s0, err := cidrset.NewMultiCIDRSet(r.IPNet(), hb)
				if err != nil {
					break
				}
				p0 := wrapPool(s0, r, n)
				for _, op := range path {
					p0.apply(op)
				}
				st := p0.state()
				key := st[:strings.Index(st, " allocs=")]
				if seen[key] {
					continue
				}
				seen[key] = true
				states++
				for _, op := range alphabet {
					serial++
					s := newPool(o, r, hb)
					p := wrapPool(s, r, n)
					for _, pop := range path {
						o.Emit(pop, p.apply(pop))
					}
					o.Emit(op, p.apply(op))
					transitions++
					queue = append(queue, append(append([]string{}, path...), op))
				}
			}
			o.Stats[fmt.Sprintf("exhaustive-cap%d-fam%d-states", maxN, fam)] = states
			o.Stats[fmt.Sprintf("exhaustive-cap%d-fam%d-transitions", maxN, fam)] = transitions
		}
	}
}

// replayPool re-runs an ops file (geo/occ/rel/next/be lines) against the real code.
func replayPool(o *Out, file string) {
	data, err := os.ReadFile(file)
	if err != nil {
		panic(err)
	}
	var p *poolUnderTest
	for _, line := range strings.Split(string(data), "\n") {
		line = strings.TrimSpace(line)
		if line == "" || strings.HasPrefix(line, "#") {
			continue
		}
		f := strings.Fields(line)
		if f[0] == "geo" {
			c, _ := tokToCidr(f[1])
			var hb int
			fmt.Sscanf(f[2], "%d", &hb)
			s := newPool(o, c, hb)
			p = nil
			if s != nil {
				p = wrapPool(s, c, c.W()-hb)
			}
			continue
		}
		if p == nil {
			o.Emit(line, "bad-op")
			continue
		}
		o.Emit(line, p.apply(line))
	}
}
