// ipamharness drives the real node-ipam-controller code (built from /repo's
// working tree with -tags verif) and writes, per stream, the operation lines
// for the Lean model driver (ops.txt), the implementation's canonical
// observations (impl.txt) and generator statistics (stats.json).
package main

import (
	"bufio"
	"encoding/json"
	"flag"
	"fmt"
	"math/rand"
	"os"
	"path/filepath"
	"sort"
)

// Out collects the two streams and the statistics of one run.
type Out struct {
	dir     string
	ops     *bufio.Writer
	impl    *bufio.Writer
	fo, fi  *os.File
	Stats   map[string]int `json:"stats"`
	Samples []string       `json:"samples"`
	Cases   int            `json:"cases"`
	Lines   int            `json:"lines"`
	Extra   map[string]any `json:"extra,omitempty"`
	caseSig map[string]bool
	Distinct int           `json:"distinct_nontrivial"`
}

func newOut(dir string) *Out {
	if err := os.MkdirAll(dir, 0o755); err != nil {
		panic(err)
	}
	fo, err := os.Create(filepath.Join(dir, "ops.txt"))
	if err != nil {
		panic(err)
	}
	fi, err := os.Create(filepath.Join(dir, "impl.txt"))
	if err != nil {
		panic(err)
	}
	return &Out{dir: dir, fo: fo, fi: fi, ops: bufio.NewWriterSize(fo, 1<<20), impl: bufio.NewWriterSize(fi, 1<<20),
		Stats: map[string]int{}, Extra: map[string]any{}, caseSig: map[string]bool{}}
}

// Emit writes one operation and the implementation's observation of it.
func (o *Out) Emit(op, obs string) {
	fmt.Fprintln(o.ops, op)
	fmt.Fprintln(o.impl, obs)
	o.Lines++
}

// Comment writes a comment line to the op stream only (the driver skips it).
func (o *Out) Comment(s string) { fmt.Fprintln(o.ops, "# "+s) }

func (o *Out) Count(k string) { o.Stats[k]++ }

// Case registers one generated case; sig identifies it for distinct counting, nontrivial by the stream's rule.
func (o *Out) Case(sig string, nontrivial bool) {
	o.Cases++
	if nontrivial && !o.caseSig[sig] {
		o.caseSig[sig] = true
		o.Distinct++
	}
}

func (o *Out) Sample(s string) {
	if len(o.Samples) < 8 {
		o.Samples = append(o.Samples, s)
	}
}

func (o *Out) Close() {
	o.ops.Flush()
	o.impl.Flush()
	o.fo.Close()
	o.fi.Close()
	b, _ := json.MarshalIndent(o, "", " ")
	_ = os.WriteFile(filepath.Join(o.dir, "stats.json"), b, 0o644)
}

func sortedKeys(m map[string]bool) []string {
	r := make([]string, 0, len(m))
	for k := range m {
		r = append(r, k)
	}
	sort.Strings(r)
	return r
}

func main() {
	if len(os.Args) < 2 {
		fmt.Fprintln(os.Stderr, "usage: ipamharness <stream> [flags]")
		os.Exit(2)
	}
	stream := os.Args[1]
	fs := flag.NewFlagSet(stream, flag.ExitOnError)
	seed := fs.Int64("seed", 1, "PRNG seed")
	tier := fs.String("tier", "quick", "quick|thorough")
	out := fs.String("out", "", "output directory")
	replay := fs.String("replay", "", "replay file (stream specific)")
	_ = fs.Parse(os.Args[2:])
	if *out == "" {
		fmt.Fprintln(os.Stderr, "-out required")
		os.Exit(2)
	}
	rng := rand.New(rand.NewSource(*seed))
	o := newOut(*out)
	defer o.Close()
	thorough := *tier == "thorough"
	switch stream {
	case "geo":
		runGeo(o, rng, thorough)
	case "pool":
		runPool(o, rng, thorough, *replay)
	case "hist":
		runHist(o, rng, thorough, *replay, "")
	case "svc":
		runHist(o, rng, thorough, *replay, "svc")
	case "order":
		runHist(o, rng, thorough, *replay, "order")
	case "restart":
		runHist(o, rng, thorough, *replay, "restart")
	case "drain":
		runHist(o, rng, thorough, *replay, "drain")
	case "mal":
		runHist(o, rng, thorough, *replay, "mal")
	case "frag":
		runHist(o, rng, thorough, *replay, "frag")
	case "fragboot":
		runHist(o, rng, thorough, *replay, "fragboot")
	case "valid":
		runValid(o, rng, thorough)
	default:
		fmt.Fprintln(os.Stderr, "unknown stream", stream)
		os.Exit(2)
	}
}
