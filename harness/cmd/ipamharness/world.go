package main

// The world the real allocator runs in for the history streams: an API server of our own (the
// rules of the Lean model's L3), stub informers whose caches the harness fills, deterministic work
// queues, a capturing event recorder.

import (
	"context"
	"encoding/json"
	"fmt"
	"sort"
	"strconv"
	"strings"
	"sync"
	"time"

	corev1 "k8s.io/api/core/v1"
	apierrors "k8s.io/apimachinery/pkg/api/errors"
	metav1 "k8s.io/apimachinery/pkg/apis/meta/v1"
	"k8s.io/apimachinery/pkg/labels"
	"k8s.io/apimachinery/pkg/runtime"
	"k8s.io/apimachinery/pkg/runtime/schema"
	"k8s.io/apimachinery/pkg/types"
	"k8s.io/apimachinery/pkg/watch"
	"k8s.io/client-go/informers"
	"k8s.io/client-go/kubernetes/fake"
	corelisters "k8s.io/client-go/listers/core/v1"
	k8stesting "k8s.io/client-go/testing"
	"k8s.io/client-go/tools/cache"
	"k8s.io/klog/v2"
	netutils "k8s.io/utils/net"

	"ipamverif/harness/internal/canon"

	v1 "sigs.k8s.io/node-ipam-controller/pkg/apis/clustercidr/v1"
	ccinformers "sigs.k8s.io/node-ipam-controller/pkg/client/informers/externalversions"
	cclisters "sigs.k8s.io/node-ipam-controller/pkg/client/listers/clustercidr/v1"
	"sigs.k8s.io/node-ipam-controller/pkg/controller/ipam"
	cidrset "sigs.k8s.io/node-ipam-controller/pkg/controller/ipam/multicidrset"
)

const finalizer = "networking.x-k8s.io/cluster-cidr-finalizer"

// ---------------------------------------------------------------- queue

type fakeQueue struct {
	mu       sync.Mutex
	pending  map[string]bool
	next     string
	hasNext  bool
	requeued []string
	forgot   []string
	failures map[string]int // what a rate limiter counts: re-queues since the last Forget
}

func newFakeQueue() *fakeQueue { return &fakeQueue{pending: map[string]bool{}} }

func (q *fakeQueue) Add(item interface{}) {
	q.mu.Lock()
	defer q.mu.Unlock()
	if s, ok := item.(string); ok {
		q.pending[s] = true
	}
}
func (q *fakeQueue) Len() int { q.mu.Lock(); defer q.mu.Unlock(); return len(q.pending) }
func (q *fakeQueue) Get() (interface{}, bool) {
	q.mu.Lock()
	defer q.mu.Unlock()
	if !q.hasNext {
		return nil, true
	}
	q.hasNext = false
	delete(q.pending, q.next)
	return q.next, false
}
func (q *fakeQueue) Done(item interface{})                  {}
func (q *fakeQueue) ShutDown()                              {}
func (q *fakeQueue) ShutDownWithDrain()                     {}
func (q *fakeQueue) ShuttingDown() bool                     { return false }
func (q *fakeQueue) AddAfter(item interface{}, d time.Duration) { q.Add(item) }
func (q *fakeQueue) AddRateLimited(item interface{}) {
	q.Add(item)
	q.mu.Lock()
	q.requeued = append(q.requeued, fmt.Sprint(item))
	if q.failures == nil {
		q.failures = map[string]int{}
	}
	q.failures[fmt.Sprint(item)]++
	q.mu.Unlock()
}
func (q *fakeQueue) Forget(item interface{}) {
	q.mu.Lock()
	q.forgot = append(q.forgot, fmt.Sprint(item))
	delete(q.failures, fmt.Sprint(item))
	q.mu.Unlock()
}
func (q *fakeQueue) NumRequeues(item interface{}) int {
	q.mu.Lock()
	defer q.mu.Unlock()
	return q.failures[fmt.Sprint(item)]
}
func (q *fakeQueue) keys() []string {
	q.mu.Lock()
	defer q.mu.Unlock()
	r := make([]string, 0, len(q.pending))
	for k := range q.pending {
		r = append(r, k)
	}
	sort.Strings(r)
	return r
}

// ---------------------------------------------------------------- recorder

type capRecorder struct {
	mu      sync.Mutex
	reasons []string
}

func (r *capRecorder) Event(object runtime.Object, eventtype, reason, message string) {
	r.mu.Lock()
	r.reasons = append(r.reasons, reason)
	r.mu.Unlock()
}
func (r *capRecorder) Eventf(object runtime.Object, eventtype, reason, messageFmt string, args ...interface{}) {
	r.Event(object, eventtype, reason, "")
}
func (r *capRecorder) AnnotatedEventf(object runtime.Object, annotations map[string]string, eventtype, reason, messageFmt string, args ...interface{}) {
	r.Event(object, eventtype, reason, "")
}
func (r *capRecorder) take() []string {
	r.mu.Lock()
	defer r.mu.Unlock()
	x := r.reasons
	r.reasons = nil
	return x
}

// ---------------------------------------------------------------- stub informers

type stubInformer struct {
	cache.SharedIndexInformer
	handlers []cache.ResourceEventHandler
	indexer  cache.Indexer
}

func (s *stubInformer) AddEventHandler(h cache.ResourceEventHandler) (cache.ResourceEventHandlerRegistration, error) {
	s.handlers = append(s.handlers, h)
	return nil, nil
}
func (s *stubInformer) HasSynced() bool          { return true }
func (s *stubInformer) GetStore() cache.Store     { return s.indexer }
func (s *stubInformer) GetIndexer() cache.Indexer { return s.indexer }

type nodeLister struct {
	corelisters.NodeLister
	w *world
}

func (l *nodeLister) Get(name string) (*corev1.Node, error) {
	l.w.nodeGets++
	if l.w.nodeGets == 2 && l.w.refreshOnSecondGet != "" {
		l.w.refreshNodeCache(l.w.refreshOnSecondGet)
		l.w.refreshed = true
	}
	return l.NodeLister.Get(name)
}

type stubNodeInformer struct {
	inf *stubInformer
	lis corelisters.NodeLister
}

func (s *stubNodeInformer) Informer() cache.SharedIndexInformer { return s.inf }
func (s *stubNodeInformer) Lister() corelisters.NodeLister      { return s.lis }

type stubCCInformer struct {
	inf *stubInformer
	lis cclisters.ClusterCIDRLister
}

func (s *stubCCInformer) Informer() cache.SharedIndexInformer    { return s.inf }
func (s *stubCCInformer) Lister() cclisters.ClusterCIDRLister { return s.lis }

// ---------------------------------------------------------------- the world

type patchRec struct {
	node    string
	cidrs   []string // canonical tokens
	raw     []string
	outcome string
}
type ccWriteRec struct {
	name    string
	fins    []string
	outcome string
	dirty   bool
}

type world struct {
	ctx context.Context
	// API state
	nodes  map[string]*corev1.Node
	graves map[string]*corev1.Node
	ccs    map[string]*v1.ClusterCIDR
	// controller incarnation
	alloc    ipam.CIDRAllocator
	h        *ipam.VerifHandle
	kube     *fake.Clientset
	nodeInf  *stubNodeInformer
	ccInf    *stubCCInformer
	nodeQ    *fakeQueue
	ccQ      *fakeQueue
	rec      *capRecorder
	sentNode map[string][]byte // what the "API server last sent" for each cached object
	sentCC   map[string][]byte
	svcs     []string
	// per-step
	patchOutcomes      []string
	ccOutcomes         []string
	patches            []patchRec
	ccWrites           []ccWriteRec
	nodeGets           int
	refreshOnSecondGet string
	refreshed          bool
	removedByRefresh   interface{} // cached node removed by a mid-item cache update: its delete handler is still due
	unexpected         []string
}

func newWorld() *world {
	w := &world{ctx: klog.NewContext(context.Background(), klog.NewKlogr().V(100)), nodes: map[string]*corev1.Node{}, graves: map[string]*corev1.Node{}, ccs: map[string]*v1.ClusterCIDR{}}
	return w
}

// ---- CC client (implements clustercidrclient.ClusterCIDRInterface)

type ccClient struct{ w *world }

func (c *ccClient) nextOutcome() string {
	if len(c.w.ccOutcomes) == 0 {
		return "ok"
	}
	o := c.w.ccOutcomes[0]
	c.w.ccOutcomes = c.w.ccOutcomes[1:]
	return o
}

func (c *ccClient) Create(ctx context.Context, cc *v1.ClusterCIDR, opts metav1.CreateOptions) (*v1.ClusterCIDR, error) {
	c.w.unexpected = append(c.w.unexpected, "cc-create:"+cc.Name)
	return nil, apierrors.NewInternalError(fmt.Errorf("unexpected create"))
}

// specDirty reports whether anything but finalizers / resourceVersion differs from the API object
func specDirty(sent, cur *v1.ClusterCIDR) bool {
	a, b := sent.DeepCopy(), cur.DeepCopy()
	a.Finalizers, b.Finalizers = nil, nil
	a.ResourceVersion, b.ResourceVersion = "", ""
	ja, _ := json.Marshal(a)
	jb, _ := json.Marshal(b)
	return string(ja) != string(jb)
}

func (c *ccClient) Update(ctx context.Context, cc *v1.ClusterCIDR, opts metav1.UpdateOptions) (*v1.ClusterCIDR, error) {
	w := c.w
	out := c.nextOutcome()
	rec := ccWriteRec{name: cc.Name, fins: append([]string{}, cc.Finalizers...)}
	defer func() { w.ccWrites = append(w.ccWrites, rec) }()
	if out == "fail" {
		rec.outcome = "fail"
		return nil, apierrors.NewInternalError(fmt.Errorf("injected failure"))
	}
	cur, ok := w.ccs[cc.Name]
	if !ok {
		rec.outcome = "rejected"
		return nil, apierrors.NewNotFound(v1.Resource("clustercidrs"), cc.Name)
	}
	if cur.ResourceVersion != cc.ResourceVersion {
		rec.outcome = "rejected"
		return nil, apierrors.NewConflict(v1.Resource("clustercidrs"), cc.Name, fmt.Errorf("resourceVersion mismatch"))
	}
	// the others' finalizers must come back in order: compare all but ours
	rec.dirty = specDirty(cc, cur) || strings.Join(without(cc.Finalizers, finalizer), "+") != strings.Join(without(cur.Finalizers, finalizer), "+")
	// apply
	if cur.DeletionTimestamp != nil && len(cc.Finalizers) == 0 {
		delete(w.ccs, cc.Name)
	} else {
		n := cur.DeepCopy()
		n.Finalizers = append([]string{}, cc.Finalizers...)
		if len(n.Finalizers) == 0 {
			n.Finalizers = nil
		}
		rv, _ := strconv.Atoi(cur.ResourceVersion)
		n.ResourceVersion = strconv.Itoa(rv + 1)
		w.ccs[cc.Name] = n
	}
	if out == "lost" {
		rec.outcome = "lost"
		return nil, apierrors.NewTimeoutError("injected: answer lost", 1)
	}
	rec.outcome = "ok"
	if n, ok := w.ccs[cc.Name]; ok {
		return n.DeepCopy(), nil
	}
	return cc.DeepCopy(), nil
}

func without(l []string, x string) []string {
	var r []string
	for _, s := range l {
		if s != x {
			r = append(r, s)
		}
	}
	return r
}

func (c *ccClient) Delete(ctx context.Context, name string, opts metav1.DeleteOptions) error {
	c.w.unexpected = append(c.w.unexpected, "cc-delete:"+name)
	return nil
}
func (c *ccClient) DeleteCollection(ctx context.Context, opts metav1.DeleteOptions, listOpts metav1.ListOptions) error {
	c.w.unexpected = append(c.w.unexpected, "cc-deletecollection")
	return nil
}
func (c *ccClient) Get(ctx context.Context, name string, opts metav1.GetOptions) (*v1.ClusterCIDR, error) {
	if cc, ok := c.w.ccs[name]; ok {
		return cc.DeepCopy(), nil
	}
	return nil, apierrors.NewNotFound(v1.Resource("clustercidrs"), name)
}
func (c *ccClient) List(ctx context.Context, opts metav1.ListOptions) (*v1.ClusterCIDRList, error) {
	l := &v1.ClusterCIDRList{}
	for _, n := range sortedMapKeys(c.w.ccs) {
		l.Items = append(l.Items, *c.w.ccs[n].DeepCopy())
	}
	return l, nil
}
func (c *ccClient) Watch(ctx context.Context, opts metav1.ListOptions) (watch.Interface, error) {
	return watch.NewFake(), nil
}
func (c *ccClient) Patch(ctx context.Context, name string, pt types.PatchType, data []byte, opts metav1.PatchOptions, subresources ...string) (*v1.ClusterCIDR, error) {
	c.w.unexpected = append(c.w.unexpected, "cc-patch:"+name)
	return nil, apierrors.NewInternalError(fmt.Errorf("unexpected patch"))
}

func sortedMapKeys[T any](m map[string]T) []string {
	r := make([]string, 0, len(m))
	for k := range m {
		r = append(r, k)
	}
	sort.Strings(r)
	return r
}

// ---- node PATCH reactor

func (w *world) nodeReactor(action k8stesting.Action) (bool, runtime.Object, error) {
	if action.GetVerb() == "patch" && action.GetResource().Resource == "nodes" {
		pa := action.(k8stesting.PatchAction)
		// a cache update announced for this item arrives, at the latest, just before its first write
		if w.refreshOnSecondGet != "" && !w.refreshed {
			w.refreshNodeCache(w.refreshOnSecondGet)
			w.refreshed = true
		}
		var body struct {
			Spec struct {
				PodCIDR  string   `json:"podCIDR"`
				PodCIDRs []string `json:"podCIDRs"`
			} `json:"spec"`
		}
		_ = json.Unmarshal(pa.GetPatch(), &body)
		rec := patchRec{node: pa.GetName(), raw: body.Spec.PodCIDRs}
		for _, s := range body.Spec.PodCIDRs {
			rec.cidrs = append(rec.cidrs, cidrTokOfString(s))
		}
		out := "ok"
		if len(w.patchOutcomes) > 0 {
			out = w.patchOutcomes[0]
			w.patchOutcomes = w.patchOutcomes[1:]
		}
		defer func() { w.patches = append(w.patches, rec) }()
		if out == "fail" {
			rec.outcome = "fail"
			return true, nil, apierrors.NewInternalError(fmt.Errorf("injected failure"))
		}
		n, ok := w.nodes[pa.GetName()]
		if !ok {
			rec.outcome = "rejected"
			return true, nil, apierrors.NewNotFound(schema.GroupResource{Resource: "nodes"}, pa.GetName())
		}
		switch {
		case len(n.Spec.PodCIDRs) == 0:
			n.Spec.PodCIDRs = append([]string{}, body.Spec.PodCIDRs...)
			n.Spec.PodCIDR = body.Spec.PodCIDR
			bumpRV(&n.ObjectMeta)
		case strings.Join(n.Spec.PodCIDRs, ",") == strings.Join(body.Spec.PodCIDRs, ","):
		default:
			rec.outcome = "rejected"
			return true, nil, apierrors.NewInvalid(schema.GroupKind{Kind: "Node"}, pa.GetName(), nil)
		}
		if out == "lost" {
			rec.outcome = "lost"
			return true, nil, apierrors.NewServerTimeout(schema.GroupResource{Resource: "nodes"}, "patch", 1)
		}
		rec.outcome = "ok"
		return true, n.DeepCopy(), nil
	}
	if action.GetVerb() == "create" && action.GetResource().Resource == "events" {
		return true, nil, nil
	}
	w.unexpected = append(w.unexpected, action.GetVerb()+":"+action.GetResource().Resource)
	return true, nil, apierrors.NewInternalError(fmt.Errorf("unexpected API call"))
}

func bumpRV(m *metav1.ObjectMeta) {
	rv, _ := strconv.Atoi(m.ResourceVersion)
	m.ResourceVersion = strconv.Itoa(rv + 1)
}

func cidrTokOfString(s string) string {
	_, n, err := netutils.ParseCIDRSloppy(s)
	if err != nil {
		return "?"
	}
	c, ok := canon.FromIPNet(n)
	if !ok {
		return "?"
	}
	// another spelling of a plain network (host bits set, upper case) is that network: the code only ever parses it
	return c.Tok()
}

// ---- caches

func (w *world) refreshNodeCache(name string) {
	if n, ok := w.nodes[name]; ok {
		c := n.DeepCopy()
		_ = w.nodeInf.inf.indexer.Update(c)
		b, _ := json.Marshal(c)
		w.sentNode[name] = b
	} else if old, exists, _ := w.nodeInf.inf.indexer.GetByKey(name); exists {
		_ = w.nodeInf.inf.indexer.Delete(old)
		delete(w.sentNode, name)
		w.removedByRefresh = old
	}
}

func (w *world) refreshCCCache(name string) {
	if n, ok := w.ccs[name]; ok {
		c := n.DeepCopy()
		_ = w.ccInf.inf.indexer.Update(c)
		b, _ := json.Marshal(c)
		w.sentCC[name] = b
	} else if old, exists, _ := w.ccInf.inf.indexer.GetByKey(name); exists {
		_ = w.ccInf.inf.indexer.Delete(old)
		delete(w.sentCC, name)
	}
}

// mutated lists the cached objects that are no longer what the API server last sent
func (w *world) mutated() []string {
	var r []string
	for _, o := range w.nodeInf.inf.indexer.List() {
		n := o.(*corev1.Node)
		b, _ := json.Marshal(n)
		if string(b) != string(w.sentNode[n.Name]) {
			r = append(r, "node/"+n.Name)
		}
	}
	for _, o := range w.ccInf.inf.indexer.List() {
		n := o.(*v1.ClusterCIDR)
		b, _ := json.Marshal(n)
		if string(b) != string(w.sentCC[n.Name]) {
			r = append(r, "cc/"+n.Name)
		}
	}
	sort.Strings(r)
	return r
}

// ---- boot

func (w *world) boot(svcs []*canon.Cidr, outcomes []string) error {
	w.kube = fake.NewSimpleClientset()
	w.kube.PrependReactor("*", "*", w.nodeReactor)
	ni := informers.NewSharedInformerFactory(w.kube, 0).Core().V1().Nodes()
	nidx := cache.NewIndexer(cache.MetaNamespaceKeyFunc, cache.Indexers{})
	w.nodeInf = &stubNodeInformer{inf: &stubInformer{SharedIndexInformer: ni.Informer(), indexer: nidx}}
	w.nodeInf.lis = &nodeLister{NodeLister: corelisters.NewNodeLister(nidx), w: w}
	cidx := cache.NewIndexer(cache.MetaNamespaceKeyFunc, cache.Indexers{})
	ci := ccinformers.NewSharedInformerFactory(nil, 0).Networking().V1().ClusterCIDRs()
	w.ccInf = &stubCCInformer{inf: &stubInformer{SharedIndexInformer: ci.Informer(), indexer: cidx}, lis: cclisters.NewClusterCIDRLister(cidx)}
	w.sentNode, w.sentCC = map[string][]byte{}, map[string][]byte{}
	w.nodeQ, w.ccQ, w.rec = newFakeQueue(), newFakeQueue(), &capRecorder{}
	w.ccOutcomes = outcomes
	params := ipam.CIDRAllocatorParams{}
	w.svcs = nil
	if len(svcs) > 0 && svcs[0] != nil {
		params.ServiceCIDR = svcs[0].IPNet()
		w.svcs = append(w.svcs, svcs[0].Tok())
	}
	if len(svcs) > 1 && svcs[1] != nil {
		params.SecondaryServiceCIDR = svcs[1].IPNet()
		w.svcs = append(w.svcs, svcs[1].Tok())
	}
	// production order: list nodes, construct, start informers
	nl := &corev1.NodeList{}
	for _, n := range sortedMapKeys(w.nodes) {
		nl.Items = append(nl.Items, *w.nodes[n].DeepCopy())
	}
	a, err := ipam.NewMultiCIDRRangeAllocator(w.ctx, w.kube, &ccClient{w}, w.nodeInf, w.ccInf, params, nl, nil)
	if err != nil {
		return err
	}
	w.alloc = a
	w.h = ipam.VerifWrap(a)
	w.h.SetQueues(w.ccQ, w.nodeQ)
	w.h.SetRecorder(w.rec)
	w.ccOutcomes = nil
	// informers start: caches = API, add notifications for everything
	for _, n := range sortedMapKeys(w.ccs) {
		w.refreshCCCache(n)
		obj, _, _ := cidx.GetByKey(n)
		for _, h := range w.ccInf.inf.handlers {
			h.OnAdd(obj, true)
		}
	}
	for _, n := range sortedMapKeys(w.nodes) {
		w.refreshNodeCache(n)
		obj, _, _ := nidx.GetByKey(n)
		for _, h := range w.nodeInf.inf.handlers {
			h.OnAdd(obj, true)
		}
	}
	return nil
}

// ---- snapshot

func (w *world) keyIndexIn(s *cidrset.MultiCIDRSet, key string) string {
	r, ok := canon.FromIPNet(s.ClusterCIDR)
	if !ok {
		return "?" + key
	}
	p := &poolUnderTest{s: s, r: r, n: s.NodeMaskSize}
	return p.keyIndex(key)
}

func (w *world) poolSnap(s *cidrset.MultiCIDRSet) string {
	if s == nil {
		return "-"
	}
	count, cursor, _, keys := s.VerifState()
	if len(keys) > 5000 {
		// only pools outside the modelled domain (robustness stream) get this large: the block list is not printed
		return fmt.Sprintf("%s@%d@%d@", s.Label, count, cursor)
	}
	var idx []int
	var bad []string
	for _, k := range keys {
		x := w.keyIndexIn(s, k)
		if i, err := strconv.Atoi(x); err == nil {
			idx = append(idx, i)
		} else {
			bad = append(bad, x)
		}
	}
	sort.Ints(idx)
	parts := make([]string, 0, len(idx))
	for _, i := range idx {
		parts = append(parts, strconv.Itoa(i))
	}
	parts = append(parts, bad...)
	return fmt.Sprintf("%s@%d@%d@%s", s.Label, count, cursor, strings.Join(parts, ","))
}

func (w *world) snapshot() string {
	var out []string
	w.h.WithCIDRMap(func(m map[string][]*cidrset.ClusterCIDR) {
		for _, k := range sortedMapKeys(m) {
			for _, c := range m[k] {
				var assoc []string
				for n, v := range c.AssociatedNodes {
					if v {
						assoc = append(assoc, n)
					} else {
						assoc = append(assoc, n+"(false)")
					}
				}
				sort.Strings(assoc)
				t := 0
				if c.Terminating {
					t = 1
				}
				out = append(out, fmt.Sprintf("%s|%s|%d|%s|%s|%s", k, c.Name, t, strings.Join(assoc, ","), w.poolSnap(c.IPv4CIDRSet), w.poolSnap(c.IPv6CIDRSet)))
			}
		}
	})
	return strings.Join(out, ";;")
}

func labelsStr(m map[string]string) string {
	var p []string
	for _, k := range sortedMapKeys(m) {
		p = append(p, k+"="+m[k])
	}
	return strings.Join(p, ",")
}

func nodeStr(n *corev1.Node) string {
	var cs []string
	for _, c := range n.Spec.PodCIDRs {
		cs = append(cs, cidrTokOfString(c))
	}
	d := ""
	if n.DeletionTimestamp != nil {
		d = "D"
	}
	return fmt.Sprintf("%s{%s}[%s]%s", n.Name, labelsStr(n.Labels), strings.Join(cs, "+"), d)
}

func ccObjStr(c *v1.ClusterCIDR) string {
	d := 0
	if c.DeletionTimestamp != nil {
		d = 1
	}
	return fmt.Sprintf("%s:%s:%d:%d:%s", c.Name, strings.Join(c.Finalizers, "+"), d, c.Generation, c.ResourceVersion)
}

func (w *world) apiStr() string {
	var ns, cs []string
	for _, k := range sortedMapKeys(w.nodes) {
		ns = append(ns, nodeStr(w.nodes[k]))
	}
	for _, k := range sortedMapKeys(w.ccs) {
		cs = append(cs, ccObjStr(w.ccs[k]))
	}
	return fmt.Sprintf("api nodes=[%s] ccs=[%s]", strings.Join(ns, ";"), strings.Join(cs, ";"))
}

func (w *world) viewStr() string {
	var ns, cs []string
	if w.nodeInf != nil {
		l, _ := corelisters.NewNodeLister(w.nodeInf.inf.indexer).List(labels.Everything())
		sort.Slice(l, func(i, j int) bool { return l[i].Name < l[j].Name })
		for _, n := range l {
			ns = append(ns, nodeStr(n))
		}
		cl, _ := w.ccInf.lis.List(labels.Everything())
		sort.Slice(cl, func(i, j int) bool { return cl[i].Name < cl[j].Name })
		for _, c := range cl {
			cs = append(cs, ccObjStr(c))
		}
	}
	return fmt.Sprintf("view nodes=[%s] ccs=[%s]", strings.Join(ns, ";"), strings.Join(cs, ";"))
}

// obs renders the observation line of one event.
func (w *world) obs(res string) string {
	var ps, cw []string
	for _, p := range w.patches {
		ps = append(ps, fmt.Sprintf("%s:%s:%s", p.node, strings.Join(p.cidrs, "+"), p.outcome))
	}
	for _, c := range w.ccWrites {
		x := fmt.Sprintf("%s:%s:%s", c.name, strings.Join(c.fins, "+"), c.outcome)
		if c.dirty {
			x += ":DIRTY"
		}
		cw = append(cw, x)
	}
	events := []string{}
	snap := ""
	nq, cq := []string{}, []string{}
	mut := []string{}
	if w.h != nil {
		events = w.rec.take()
		snap = w.snapshot()
		nq, cq = w.nodeQ.keys(), w.ccQ.keys()
		mut = w.mutated()
	}
	un := ""
	if len(w.unexpected) > 0 {
		un = " unexpected=" + strings.Join(w.unexpected, ",")
	}
	return fmt.Sprintf("ev res=%s patches=[%s] ccw=[%s] events=[%s] mut=[%s] nq=[%s] cq=[%s]%s ## snap %s ## %s ## %s",
		res, strings.Join(ps, ";"), strings.Join(cw, ";"), strings.Join(events, ","), strings.Join(mut, ","),
		strings.Join(nq, ","), strings.Join(cq, ","), un, snap, w.apiStr(), w.viewStr())
}
