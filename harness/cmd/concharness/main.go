// concharness is supporting validation for C15 (not a proof): the real Run with its 30+30 workers, real
// rate-limiting queues, concurrent informer callbacks and a concurrent API, built with the race detector.
// At quiescence it judges the three conclusions of the property on the final cluster state.
package main

import (
	"context"
	"encoding/json"
	"flag"
	"fmt"
	"math/rand"
	"net"
	"os"
	"sort"
	"strconv"
	"strings"
	"sync"
	"sync/atomic"
	"time"

	corev1 "k8s.io/api/core/v1"
	apierrors "k8s.io/apimachinery/pkg/api/errors"
	metav1 "k8s.io/apimachinery/pkg/apis/meta/v1"
	"k8s.io/apimachinery/pkg/runtime"
	"k8s.io/apimachinery/pkg/runtime/schema"
	"k8s.io/apimachinery/pkg/types"
	"k8s.io/apimachinery/pkg/watch"
	"k8s.io/client-go/informers"
	"k8s.io/client-go/kubernetes/fake"
	corelisters "k8s.io/client-go/listers/core/v1"
	k8stesting "k8s.io/client-go/testing"
	"k8s.io/client-go/tools/cache"
	"k8s.io/klog/v2"
	netutils "k8s.io/utils/net"

	v1 "sigs.k8s.io/node-ipam-controller/pkg/apis/clustercidr/v1"
	ccinformers "sigs.k8s.io/node-ipam-controller/pkg/client/informers/externalversions"
	cclisters "sigs.k8s.io/node-ipam-controller/pkg/client/listers/clustercidr/v1"
	"sigs.k8s.io/node-ipam-controller/pkg/controller/ipam"
	cidrset "sigs.k8s.io/node-ipam-controller/pkg/controller/ipam/multicidrset"
)

const finalizer = "networking.x-k8s.io/cluster-cidr-finalizer"

type api struct {
	mu         sync.Mutex
	nodes      map[string]*corev1.Node
	graves     map[string]*corev1.Node
	ccs        map[string]*v1.ClusterCIDR
	violations []string
	patches    int64
	failEvery  int64
	calls      int64
}

func (a *api) violate(s string) {
	a.violations = append(a.violations, s)
}

type stubInformer struct {
	cache.SharedIndexInformer
	mu       sync.Mutex
	handlers []cache.ResourceEventHandler
	indexer  cache.Indexer
}

func (s *stubInformer) AddEventHandler(h cache.ResourceEventHandler) (cache.ResourceEventHandlerRegistration, error) {
	s.mu.Lock()
	defer s.mu.Unlock()
	s.handlers = append(s.handlers, h)
	return nil, nil
}
func (s *stubInformer) HasSynced() bool          { return true }
func (s *stubInformer) GetStore() cache.Store     { return s.indexer }
func (s *stubInformer) GetIndexer() cache.Indexer { return s.indexer }

type nodeInf struct {
	inf *stubInformer
	lis corelisters.NodeLister
}

func (s *nodeInf) Informer() cache.SharedIndexInformer { return s.inf }
func (s *nodeInf) Lister() corelisters.NodeLister      { return s.lis }

type ccInf struct {
	inf *stubInformer
	lis cclisters.ClusterCIDRLister
}

func (s *ccInf) Informer() cache.SharedIndexInformer    { return s.inf }
func (s *ccInf) Lister() cclisters.ClusterCIDRLister { return s.lis }

type ccClient struct{ a *api }

func (c *ccClient) Create(ctx context.Context, cc *v1.ClusterCIDR, opts metav1.CreateOptions) (*v1.ClusterCIDR, error) {
	return nil, apierrors.NewInternalError(fmt.Errorf("unexpected"))
}
func overlaps(a, b *net.IPNet) bool {
	return a.Contains(b.IP) || b.Contains(a.IP)
}
func (c *ccClient) Update(ctx context.Context, cc *v1.ClusterCIDR, opts metav1.UpdateOptions) (*v1.ClusterCIDR, error) {
	a := c.a
	a.mu.Lock()
	defer a.mu.Unlock()
	n := atomic.AddInt64(&a.calls, 1)
	if a.failEvery > 0 && n%a.failEvery == 0 {
		return nil, apierrors.NewInternalError(fmt.Errorf("injected"))
	}
	cur, ok := a.ccs[cc.Name]
	if !ok {
		return nil, apierrors.NewNotFound(v1.Resource("clustercidrs"), cc.Name)
	}
	if cur.ResourceVersion != cc.ResourceVersion {
		return nil, apierrors.NewConflict(v1.Resource("clustercidrs"), cc.Name, fmt.Errorf("rv"))
	}
	hasOurs := false
	for _, f := range cc.Finalizers {
		if f == finalizer {
			hasOurs = true
		}
	}
	if cur.DeletionTimestamp != nil && !hasOurs {
		// C06 / C15: the finalizer goes only when no existing node depends on this ClusterCIDR (ranges are disjoint here)
		for _, s := range []string{cur.Spec.IPv4, cur.Spec.IPv6} {
			if s == "" {
				continue
			}
			_, r, _ := netutils.ParseCIDRSloppy(s)
			for _, nd := range a.nodes {
				for _, pc := range nd.Spec.PodCIDRs {
					_, pn, err := netutils.ParseCIDRSloppy(pc)
					if err == nil && overlaps(r, pn) {
						a.violate(fmt.Sprintf("finalizer of ClusterCIDR %s removed while existing node %s holds %s inside it", cc.Name, nd.Name, pc))
					}
				}
			}
		}
	}
	if cur.DeletionTimestamp != nil && len(cc.Finalizers) == 0 {
		delete(a.ccs, cc.Name)
		return cc.DeepCopy(), nil
	}
	nw := cur.DeepCopy()
	nw.Finalizers = append([]string{}, cc.Finalizers...)
	rv, _ := strconv.Atoi(cur.ResourceVersion)
	nw.ResourceVersion = strconv.Itoa(rv + 1)
	a.ccs[cc.Name] = nw
	return nw.DeepCopy(), nil
}
func (c *ccClient) Delete(ctx context.Context, name string, opts metav1.DeleteOptions) error { return nil }
func (c *ccClient) DeleteCollection(ctx context.Context, opts metav1.DeleteOptions, listOpts metav1.ListOptions) error {
	return nil
}
func (c *ccClient) Get(ctx context.Context, name string, opts metav1.GetOptions) (*v1.ClusterCIDR, error) {
	c.a.mu.Lock()
	defer c.a.mu.Unlock()
	if cc, ok := c.a.ccs[name]; ok {
		return cc.DeepCopy(), nil
	}
	return nil, apierrors.NewNotFound(v1.Resource("clustercidrs"), name)
}
func (c *ccClient) List(ctx context.Context, opts metav1.ListOptions) (*v1.ClusterCIDRList, error) {
	c.a.mu.Lock()
	defer c.a.mu.Unlock()
	l := &v1.ClusterCIDRList{}
	var names []string
	for n := range c.a.ccs {
		names = append(names, n)
	}
	sort.Strings(names)
	for _, n := range names {
		l.Items = append(l.Items, *c.a.ccs[n].DeepCopy())
	}
	return l, nil
}
func (c *ccClient) Watch(ctx context.Context, opts metav1.ListOptions) (watch.Interface, error) {
	return watch.NewFake(), nil
}
func (c *ccClient) Patch(ctx context.Context, name string, pt types.PatchType, data []byte, opts metav1.PatchOptions, subresources ...string) (*v1.ClusterCIDR, error) {
	return nil, apierrors.NewInternalError(fmt.Errorf("unexpected"))
}

func (a *api) nodeReactor(action k8stesting.Action) (bool, runtime.Object, error) {
	if action.GetVerb() == "patch" && action.GetResource().Resource == "nodes" {
		pa := action.(k8stesting.PatchAction)
		var body struct {
			Spec struct {
				PodCIDR  string   `json:"podCIDR"`
				PodCIDRs []string `json:"podCIDRs"`
			} `json:"spec"`
		}
		_ = json.Unmarshal(pa.GetPatch(), &body)
		a.mu.Lock()
		defer a.mu.Unlock()
		k := atomic.AddInt64(&a.calls, 1)
		if a.failEvery > 0 && k%a.failEvery == 0 {
			return true, nil, apierrors.NewInternalError(fmt.Errorf("injected"))
		}
		n, ok := a.nodes[pa.GetName()]
		if !ok {
			return true, nil, apierrors.NewNotFound(schema.GroupResource{Resource: "nodes"}, pa.GetName())
		}
		if len(n.Spec.PodCIDRs) != 0 && strings.Join(n.Spec.PodCIDRs, ",") != strings.Join(body.Spec.PodCIDRs, ",") {
			return true, nil, apierrors.NewInvalid(schema.GroupKind{Kind: "Node"}, pa.GetName(), nil)
		}
		// C01: must not overlap another existing node
		for _, pc := range body.Spec.PodCIDRs {
			_, pn, err := netutils.ParseCIDRSloppy(pc)
			if err != nil {
				a.violate("bogus CIDR patched: " + pc)
				continue
			}
			for _, o := range a.nodes {
				if o.Name == n.Name {
					continue
				}
				for _, oc := range o.Spec.PodCIDRs {
					_, on, err := netutils.ParseCIDRSloppy(oc)
					if err == nil && overlaps(pn, on) {
						a.violate(fmt.Sprintf("node %s assigned %s overlapping %s of existing node %s", n.Name, pc, oc, o.Name))
					}
				}
			}
		}
		n.Spec.PodCIDRs = append([]string{}, body.Spec.PodCIDRs...)
		n.Spec.PodCIDR = body.Spec.PodCIDR
		rv, _ := strconv.Atoi(n.ResourceVersion)
		n.ResourceVersion = strconv.Itoa(rv + 1)
		atomic.AddInt64(&a.patches, 1)
		return true, n.DeepCopy(), nil
	}
	if ca, ok := action.(k8stesting.CreateAction); ok {
		return true, ca.GetObject(), nil
	}
	if ca, ok := action.(k8stesting.PatchAction); ok && ca.GetResource().Resource == "events" {
		return true, &corev1.Event{}, nil
	}
	return true, nil, apierrors.NewInternalError(fmt.Errorf("unexpected API call"))
}

func main() {
	seed := flag.Int64("seed", 1, "seed")
	rounds := flag.Int("rounds", 6, "workloads")
	outp := flag.String("out", "", "result json")
	flag.Parse()
	klog.InitFlags(nil)
	_ = flag.Set("logtostderr", "false")
	_ = flag.Set("alsologtostderr", "false")
	klog.SetOutput(devnull{})
	res := map[string]any{"rounds": *rounds, "violations": []string{}}
	var all []string
	patches := int64(0)
	for r := 0; r < *rounds; r++ {
		v, p := workload(*seed*1000 + int64(r))
		all = append(all, v...)
		patches += p
	}
	res["violations"] = all
	res["patches"] = patches
	if *outp != "" {
		b, _ := json.MarshalIndent(res, "", " ")
		_ = os.WriteFile(*outp, b, 0o644)
	}
	if len(all) > 0 {
		for _, v := range all {
			fmt.Println("CONC-VIOLATION", v)
		}
		os.Exit(3)
	}
	fmt.Println("conc ok rounds", *rounds, "patches", patches)
}

type devnull struct{}

func (devnull) Write(p []byte) (int, error) { return len(p), nil }

func workload(seed int64) ([]string, int64) {
	rng := rand.New(rand.NewSource(seed))
	a := &api{nodes: map[string]*corev1.Node{}, graves: map[string]*corev1.Node{}, ccs: map[string]*v1.ClusterCIDR{}, failEvery: int64(7 + rng.Intn(9))}
	kube := fake.NewSimpleClientset()
	kube.PrependReactor("*", "*", a.nodeReactor)
	ni := informers.NewSharedInformerFactory(kube, 0).Core().V1().Nodes()
	nidx := cache.NewIndexer(cache.MetaNamespaceKeyFunc, cache.Indexers{})
	nInf := &nodeInf{inf: &stubInformer{SharedIndexInformer: ni.Informer(), indexer: nidx}, lis: corelisters.NewNodeLister(nidx)}
	cidx := cache.NewIndexer(cache.MetaNamespaceKeyFunc, cache.Indexers{})
	ci := ccinformers.NewSharedInformerFactory(nil, 0).Networking().V1().ClusterCIDRs()
	cInf := &ccInf{inf: &stubInformer{SharedIndexInformer: ci.Informer(), indexer: cidx}, lis: cclisters.NewClusterCIDRLister(cidx)}
	// disjoint ranges, every ClusterCIDR selects every node (C15's conclusions are judged inside the envelope)
	specs := []v1.ClusterCIDRSpec{
		{IPv4: "10.0.0.0/24", PerNodeHostBits: 4}, {IPv4: "10.0.1.0/25", PerNodeHostBits: 4}, {IPv6: "fd00::/122", PerNodeHostBits: 4},
		{IPv4: "10.0.2.0/26", IPv6: "fd00:1::/122", PerNodeHostBits: 4}, {IPv4: "10.0.3.0/26", PerNodeHostBits: 5},
	}
	for i, s := range specs[:2+rng.Intn(2)] {
		a.ccs[fmt.Sprintf("c%d", i)] = &v1.ClusterCIDR{ObjectMeta: metav1.ObjectMeta{Name: fmt.Sprintf("c%d", i), ResourceVersion: "1", Generation: 1}, Spec: s}
	}
	ctx, cancel := context.WithCancel(klog.NewContext(context.Background(), klog.NewKlogr().V(100)))
	defer cancel()
	alloc, err := ipam.NewMultiCIDRRangeAllocator(ctx, kube, &ccClient{a}, nInf, cInf, ipam.CIDRAllocatorParams{}, &corev1.NodeList{}, nil)
	if err != nil {
		return []string{"constructor: " + err.Error()}, 0
	}
	h := ipam.VerifWrap(alloc)
	go alloc.Run(ctx)
	// informer goroutines: one per resource, events of one object delivered in order
	nodeCh := make(chan string, 10000)
	ccCh := make(chan string, 10000)
	var infWG sync.WaitGroup
	deliverNode := func(name string) {
		a.mu.Lock()
		cur, ok := a.nodes[name]
		var cp, grave *corev1.Node
		if ok {
			cp = cur.DeepCopy()
		} else if g, has := a.graves[name]; has {
			grave = g.DeepCopy()
		}
		a.mu.Unlock()
		old, exists, _ := nidx.GetByKey(name)
		nInf.inf.mu.Lock()
		hs := append([]cache.ResourceEventHandler{}, nInf.inf.handlers...)
		nInf.inf.mu.Unlock()
		if ok {
			_ = nidx.Update(cp)
			for _, hd := range hs {
				if exists {
					hd.OnUpdate(old, cp)
				} else {
					hd.OnAdd(cp, false)
				}
			}
		} else if exists {
			_ = nidx.Delete(old)
			var final interface{} = old
			if grave != nil {
				final = grave // the DELETED watch event carries the final state of the object
			}
			for _, hd := range hs {
				hd.OnDelete(final)
			}
		}
	}
	deliverCC := func(name string) {
		a.mu.Lock()
		cur, ok := a.ccs[name]
		var cp *v1.ClusterCIDR
		if ok {
			cp = cur.DeepCopy()
		}
		a.mu.Unlock()
		old, exists, _ := cidx.GetByKey(name)
		cInf.inf.mu.Lock()
		hs := append([]cache.ResourceEventHandler{}, cInf.inf.handlers...)
		cInf.inf.mu.Unlock()
		if ok {
			_ = cidx.Update(cp)
			for _, hd := range hs {
				if exists {
					hd.OnUpdate(old, cp)
				} else {
					hd.OnAdd(cp, false)
				}
			}
		} else if exists {
			_ = cidx.Delete(old)
			for _, hd := range hs {
				hd.OnDelete(old)
			}
		}
	}
	infWG.Add(2)
	go func() {
		defer infWG.Done()
		for n := range nodeCh {
			deliverNode(n)
		}
	}()
	go func() {
		defer infWG.Done()
		for n := range ccCh {
			deliverCC(n)
		}
	}()
	a.mu.Lock()
	for n := range a.ccs {
		ccCh <- n
	}
	a.mu.Unlock()
	// mutators
	var wg sync.WaitGroup
	var nodeNo int64
	for g := 0; g < 6; g++ {
		wg.Add(1)
		gr := rand.New(rand.NewSource(seed*31 + int64(g)))
		go func() {
			defer wg.Done()
			for k := 0; k < 60; k++ {
				switch x := gr.Intn(100); {
				case x < 50:
					name := fmt.Sprintf("n%d", atomic.AddInt64(&nodeNo, 1))
					a.mu.Lock()
					a.nodes[name] = &corev1.Node{ObjectMeta: metav1.ObjectMeta{Name: name, ResourceVersion: "1"}}
					a.mu.Unlock()
					nodeCh <- name
				case x < 72:
					a.mu.Lock()
					var names []string
					for n := range a.nodes {
						names = append(names, n)
					}
					sort.Strings(names)
					if len(names) > 0 {
						n := names[gr.Intn(len(names))]
						a.graves[n] = a.nodes[n]
						delete(a.nodes, n)
						a.mu.Unlock()
						nodeCh <- n
					} else {
						a.mu.Unlock()
					}
				case x < 82:
					i := gr.Intn(len(specs))
					name := fmt.Sprintf("c%d", i)
					a.mu.Lock()
					if _, ok := a.ccs[name]; !ok {
						a.ccs[name] = &v1.ClusterCIDR{ObjectMeta: metav1.ObjectMeta{Name: name, ResourceVersion: "1", Generation: 1}, Spec: specs[i]}
					}
					a.mu.Unlock()
					ccCh <- name
				case x < 92:
					a.mu.Lock()
					var names []string
					for n, c := range a.ccs {
						if c.DeletionTimestamp == nil {
							names = append(names, n)
						}
					}
					sort.Strings(names)
					if len(names) > 1 {
						n := names[gr.Intn(len(names))]
						c := a.ccs[n]
						if len(c.Finalizers) == 0 {
							// not yet protected by the finalizer: deleting it now is the known finding P15, outside the envelope
						} else {
							t := metav1.Now()
							c.DeletionTimestamp = &t
							rv, _ := strconv.Atoi(c.ResourceVersion)
							c.ResourceVersion = strconv.Itoa(rv + 1)
						}
						a.mu.Unlock()
						ccCh <- n
					} else {
						a.mu.Unlock()
					}
				default:
					time.Sleep(time.Duration(gr.Intn(3)) * time.Millisecond)
				}
			}
		}()
	}
	wg.Wait()
	// let the cluster settle: deliver everything, wait for the workers to drain
	settle := func() {
		deadline := time.Now().Add(20 * time.Second)
		for time.Now().Before(deadline) {
			a.mu.Lock()
			var nn, cn []string
			for n := range a.nodes {
				nn = append(nn, n)
			}
			for n := range a.ccs {
				cn = append(cn, n)
			}
			a.mu.Unlock()
			for _, k := range nidx.ListKeys() {
				nn = append(nn, k)
			}
			for _, k := range cidx.ListKeys() {
				cn = append(cn, k)
			}
			for _, n := range cn {
				ccCh <- n
			}
			for _, n := range nn {
				nodeCh <- n
			}
			time.Sleep(400 * time.Millisecond)
			a.mu.Lock()
			c0 := atomic.LoadInt64(&a.calls)
			a.mu.Unlock()
			time.Sleep(400 * time.Millisecond)
			if atomic.LoadInt64(&a.calls) == c0 && len(nodeCh) == 0 && len(ccCh) == 0 {
				return
			}
		}
	}
	a.mu.Lock()
	a.failEvery = 0
	a.mu.Unlock()
	settle()
	close(nodeCh)
	close(ccCh)
	infWG.Wait()
	time.Sleep(300 * time.Millisecond)
	// final judgement
	a.mu.Lock()
	defer a.mu.Unlock()
	// (1) no two nodes overlap
	var nets []struct {
		node string
		n    *net.IPNet
	}
	for _, nd := range a.nodes {
		for _, pc := range nd.Spec.PodCIDRs {
			_, pn, err := netutils.ParseCIDRSloppy(pc)
			if err == nil {
				nets = append(nets, struct {
					node string
					n    *net.IPNet
				}{nd.Name, pn})
			}
		}
	}
	for i := range nets {
		for j := i + 1; j < len(nets); j++ {
			if nets[i].node != nets[j].node && overlaps(nets[i].n, nets[j].n) {
				a.violate(fmt.Sprintf("final state: nodes %s and %s overlap (%s, %s)", nets[i].node, nets[j].node, nets[i].n, nets[j].n))
			}
		}
	}
	// (2) nothing withheld without justification
	h.WithCIDRMap(func(m map[string][]*cidrset.ClusterCIDR) {
		for _, l := range m {
			for _, c := range l {
				for _, s := range []*cidrset.MultiCIDRSet{c.IPv4CIDRSet, c.IPv6CIDRSet} {
					if s == nil {
						continue
					}
					_, _, _, keys := s.VerifState()
					for _, k := range keys {
						_, kn, _ := netutils.ParseCIDRSloppy(k)
						just := false
						for _, x := range nets {
							if overlaps(kn, x.n) {
								just = true
							}
						}
						if !just {
							a.violate(fmt.Sprintf("final state: block %s of ClusterCIDR %s is withheld but no existing node touches it", k, c.Name))
						}
					}
				}
			}
		}
	})
	return a.violations, atomic.LoadInt64(&a.patches)
}
