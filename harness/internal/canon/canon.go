// Package canon converts between Go's net types and the canonical tokens of
// the line protocol shared with the Lean driver. Trusted glue (DESIGN §4).
package canon

import (
	"fmt"
	"math/big"
	"net"
)

// Cidr is a CIDR as numbers.
type Cidr struct {
	Fam  int // 4 or 6
	Addr *big.Int
	Len  int
}

// W returns the address width.
func (c Cidr) W() int {
	if c.Fam == 4 {
		return 32
	}
	return 128
}

// FromIPNet converts; ok=false for anything that is not a plain v4 / v6 network.
func FromIPNet(n *net.IPNet) (Cidr, bool) {
	if n == nil {
		return Cidr{}, false
	}
	ones, bits := n.Mask.Size()
	if bits == 0 {
		return Cidr{}, false
	}
	if ip4 := n.IP.To4(); ip4 != nil && bits == 32 {
		return Cidr{4, new(big.Int).SetBytes(ip4), ones}, true
	}
	if len(n.IP) == net.IPv6len && bits == 128 && n.IP.To4() == nil {
		return Cidr{6, new(big.Int).SetBytes(n.IP), ones}, true
	}
	return Cidr{}, false
}

// Tok renders `4:a000100/28`.
func (c Cidr) Tok() string {
	return fmt.Sprintf("%d:%s/%d", c.Fam, c.Addr.Text(16), c.Len)
}

// TokNet renders a net.IPNet, or "?" + its string when it is not canonical.
func TokNet(n *net.IPNet) string {
	c, ok := FromIPNet(n)
	if !ok {
		if n == nil {
			return "?nil"
		}
		return "?" + n.String()
	}
	return c.Tok()
}

// IPNet builds the net.IPNet (address is masked first).
func (c Cidr) IPNet() *net.IPNet {
	w := c.W()
	b := make([]byte, w/8)
	c.Addr.FillBytes(b)
	mask := net.CIDRMask(c.Len, w)
	ip := net.IP(b).Mask(mask)
	return &net.IPNet{IP: ip, Mask: mask}
}

// Mk builds a masked Cidr.
func Mk(fam int, addr *big.Int, l int) Cidr {
	w := 32
	if fam == 6 {
		w = 128
	}
	a := new(big.Int).Rsh(addr, uint(w-l))
	a.Lsh(a, uint(w-l))
	// keep within width
	a.And(a, new(big.Int).Sub(new(big.Int).Lsh(big.NewInt(1), uint(w)), big.NewInt(1)))
	return Cidr{fam, a, l}
}

// String gives Go's textual form.
func (c Cidr) String() string { return c.IPNet().String() }
