module ipamverif/harness

go 1.21

require (
	github.com/evanphx/json-patch v5.6.0+incompatible
	github.com/golangci/golangci-lint v1.54.2
	github.com/jessevdk/go-flags v1.6.1
	github.com/onsi/ginkgo/v2 v2.13.2
	github.com/onsi/gomega v1.30.0
	github.com/prometheus/client_golang v1.20.5
	github.com/stretchr/testify v1.9.0
	go.uber.org/zap v1.26.0
	k8s.io/api v0.28.3
	k8s.io/apimachinery v0.28.3
	k8s.io/client-go v0.28.3
	k8s.io/code-generator v0.28.3
	k8s.io/component-base v0.28.3
	k8s.io/component-helpers v0.28.3
	k8s.io/klog/v2 v2.110.1
	k8s.io/utils v0.0.0-20230726121419-3b25d923346b
	mvdan.cc/gofumpt v0.5.0
	sigs.k8s.io/controller-runtime v0.16.3
	sigs.k8s.io/controller-runtime/tools/setup-envtest v0.0.0-20231121004636-2154ffbc22e2
	sigs.k8s.io/controller-tools v0.13.0
)

require (
	4d63.com/gocheckcompilerdirectives v1.2.1 // indirect
	4d63.com/gochecknoglobals v0.2.1 // indirect
	github.com/4meepo/tagalign v1.3.2 // indirect
	github.com/Abirdcfly/dupword v0.0.12 // indirect
	github.com/Antonboom/errname v0.1.12 // indirect
	github.com/Antonboom/nilnil v0.1.7 // indirect
	github.com/BurntSushi/toml v1.3.2 // indirect
	github.com/Djarvur/go-err113 v0.0.0-20210108212216-aea10b59be24 // indirect
	github.com/GaijinEntertainment/go-exhaustruct/v3 v3.1.0 // indirect
	github.com/Masterminds/semver v1.5.0 // indirect
	github.com/OpenPeeDeeP/depguard/v2 v2.1.0 // indirect
	github.com/alexkohler/nakedret/v2 v2.0.2 // indirect
	github.com/alexkohler/prealloc v1.0.0 // indirect
	github.com/alingse/asasalint v0.0.11 // indirect
	github.com/ashanbrown/forbidigo v1.6.0 // indirect
	github.com/ashanbrown/makezero v1.1.1 // indirect
	github.com/beorn7/perks v1.0.1 // indirect
	github.com/bkielbasa/cyclop v1.2.1 // indirect
	github.com/blang/semver/v4 v4.0.0 // indirect
	github.com/blizzy78/varnamelen v0.8.0 // indirect
	github.com/bombsimon/wsl/v3 v3.4.0 // indirect
	github.com/breml/bidichk v0.2.4 // indirect
	github.com/breml/errchkjson v0.3.1 // indirect
	github.com/butuzov/ireturn v0.2.0 // indirect
	github.com/butuzov/mirror v1.1.0 // indirect
	github.com/ccojocar/zxcvbn-go v1.0.1 // indirect
	github.com/cespare/xxhash/v2 v2.3.0 // indirect
	github.com/charithe/durationcheck v0.0.10 // indirect
	github.com/chavacava/garif v0.0.0-20230227094218-b8c73b2037b8 // indirect
	github.com/curioswitch/go-reassign v0.2.0 // indirect
	github.com/daixiang0/gci v0.11.0 // indirect
	github.com/davecgh/go-spew v1.1.1 // indirect
	github.com/denis-tingaikin/go-header v0.4.3 // indirect
	github.com/emicklei/go-restful/v3 v3.11.0 // indirect
	github.com/esimonov/ifshort v1.0.4 // indirect
	github.com/ettle/strcase v0.1.1 // indirect
	github.com/evanphx/json-patch/v5 v5.6.0 // indirect
	github.com/fatih/color v1.15.0 // indirect
	github.com/fatih/structtag v1.2.0 // indirect
	github.com/firefart/nonamedreturns v1.0.4 // indirect
	github.com/fsnotify/fsnotify v1.6.0 // indirect
	github.com/fzipp/gocyclo v0.6.0 // indirect
	github.com/go-critic/go-critic v0.9.0 // indirect
	github.com/go-logr/logr v1.3.0 // indirect
	github.com/go-logr/zapr v1.2.4 // indirect
	github.com/go-openapi/jsonpointer v0.19.6 // indirect
	github.com/go-openapi/jsonreference v0.20.2 // indirect
	github.com/go-openapi/swag v0.22.3 // indirect
	github.com/go-task/slim-sprig v0.0.0-20230315185526-52ccab3ef572 // indirect
	github.com/go-toolsmith/astcast v1.1.0 // indirect
	github.com/go-toolsmith/astcopy v1.1.0 // indirect
	github.com/go-toolsmith/astequal v1.1.0 // indirect
	github.com/go-toolsmith/astfmt v1.1.0 // indirect
	github.com/go-toolsmith/astp v1.1.0 // indirect
	github.com/go-toolsmith/strparse v1.1.0 // indirect
	github.com/go-toolsmith/typep v1.1.0 // indirect
	github.com/go-xmlfmt/xmlfmt v1.1.2 // indirect
	github.com/gobuffalo/flect v1.0.2 // indirect
	github.com/gobwas/glob v0.2.3 // indirect
	github.com/gofrs/flock v0.8.1 // indirect
	github.com/gogo/protobuf v1.3.2 // indirect
	github.com/golang/groupcache v0.0.0-20210331224755-41bb18bfe9da // indirect
	github.com/golang/protobuf v1.5.4 // indirect
	github.com/golangci/check v0.0.0-20180506172741-cfe4005ccda2 // indirect
	github.com/golangci/dupl v0.0.0-20180902072040-3e9179ac440a // indirect
	github.com/golangci/go-misc v0.0.0-20220329215616-d24fe342adfe // indirect
	github.com/golangci/gofmt v0.0.0-20220901101216-f2edd75033f2 // indirect
	github.com/golangci/lint-1 v0.0.0-20191013205115-297bf364a8e0 // indirect
	github.com/golangci/maligned v0.0.0-20180506175553-b1d89398deca // indirect
	github.com/golangci/misspell v0.4.1 // indirect
	github.com/golangci/revgrep v0.0.0-20220804021717-745bb2f7c2e6 // indirect
	github.com/golangci/unconvert v0.0.0-20180507085042-28b1c447d1f4 // indirect
	github.com/google/gnostic-models v0.6.8 // indirect
	github.com/google/go-cmp v0.6.0 // indirect
	github.com/google/gofuzz v1.2.0 // indirect
	github.com/google/pprof v0.0.0-20210720184732-4bb14d4b1be1 // indirect
	github.com/google/uuid v1.3.0 // indirect
	github.com/gordonklaus/ineffassign v0.0.0-20230610083614-0e73809eb601 // indirect
	github.com/gostaticanalysis/analysisutil v0.7.1 // indirect
	github.com/gostaticanalysis/comment v1.4.2 // indirect
	github.com/gostaticanalysis/forcetypeassert v0.1.0 // indirect
	github.com/gostaticanalysis/nilerr v0.1.1 // indirect
	github.com/hashicorp/errwrap v1.0.0 // indirect
	github.com/hashicorp/go-multierror v1.1.1 // indirect
	github.com/hashicorp/go-version v1.6.0 // indirect
	github.com/hashicorp/hcl v1.0.0 // indirect
	github.com/hexops/gotextdiff v1.0.3 // indirect
	github.com/imdario/mergo v0.3.6 // indirect
	github.com/inconshreveable/mousetrap v1.1.0 // indirect
	github.com/jgautheron/goconst v1.5.1 // indirect
	github.com/jingyugao/rowserrcheck v1.1.1 // indirect
	github.com/jirfag/go-printf-func-name v0.0.0-20200119135958-7558a9eaa5af // indirect
	github.com/josharian/intern v1.0.0 // indirect
	github.com/json-iterator/go v1.1.12 // indirect
	github.com/julz/importas v0.1.0 // indirect
	github.com/kisielk/errcheck v1.6.3 // indirect
	github.com/kisielk/gotool v1.0.0 // indirect
	github.com/kkHAIKE/contextcheck v1.1.4 // indirect
	github.com/klauspost/compress v1.17.9 // indirect
	github.com/kulti/thelper v0.6.3 // indirect
	github.com/kunwardeep/paralleltest v1.0.8 // indirect
	github.com/kylelemons/godebug v1.1.0 // indirect
	github.com/kyoh86/exportloopref v0.1.11 // indirect
	github.com/ldez/gomoddirectives v0.2.3 // indirect
	github.com/ldez/tagliatelle v0.5.0 // indirect
	github.com/leonklingele/grouper v1.1.1 // indirect
	github.com/lufeee/execinquery v1.2.1 // indirect
	github.com/magiconair/properties v1.8.6 // indirect
	github.com/mailru/easyjson v0.7.7 // indirect
	github.com/maratori/testableexamples v1.0.0 // indirect
	github.com/maratori/testpackage v1.1.1 // indirect
	github.com/matoous/godox v0.0.0-20230222163458-006bad1f9d26 // indirect
	github.com/mattn/go-colorable v0.1.13 // indirect
	github.com/mattn/go-isatty v0.0.17 // indirect
	github.com/mattn/go-runewidth v0.0.9 // indirect
	github.com/mbilski/exhaustivestruct v1.2.0 // indirect
	github.com/mgechev/revive v1.3.2 // indirect
	github.com/mitchellh/go-homedir v1.1.0 // indirect
	github.com/mitchellh/mapstructure v1.5.0 // indirect
	github.com/modern-go/concurrent v0.0.0-20180306012644-bacd9c7ef1dd // indirect
	github.com/modern-go/reflect2 v1.0.2 // indirect
	github.com/moricho/tparallel v0.3.1 // indirect
	github.com/munnerz/goautoneg v0.0.0-20191010083416-a7dc8b61c822 // indirect
	github.com/nakabonne/nestif v0.3.1 // indirect
	github.com/nishanths/exhaustive v0.11.0 // indirect
	github.com/nishanths/predeclared v0.2.2 // indirect
	github.com/nunnatsa/ginkgolinter v0.13.5 // indirect
	github.com/olekukonko/tablewriter v0.0.5 // indirect
	github.com/pelletier/go-toml v1.9.5 // indirect
	github.com/pelletier/go-toml/v2 v2.0.5 // indirect
	github.com/pkg/errors v0.9.1 // indirect
	github.com/pmezard/go-difflib v1.0.0 // indirect
	github.com/polyfloyd/go-errorlint v1.4.4 // indirect
	github.com/prometheus/common v0.55.0 // indirect
	github.com/prometheus/procfs v0.15.1 // indirect
	github.com/quasilyte/go-ruleguard v0.4.0 // indirect
	github.com/quasilyte/gogrep v0.5.0 // indirect
	github.com/quasilyte/regex/syntax v0.0.0-20210819130434-b3f0c404a727 // indirect
	github.com/quasilyte/stdinfo v0.0.0-20220114132959-f7386bf02567 // indirect
	github.com/ryancurrah/gomodguard v1.3.0 // indirect
	github.com/ryanrolds/sqlclosecheck v0.4.0 // indirect
	github.com/sanposhiho/wastedassign/v2 v2.0.7 // indirect
	github.com/sashamelentyev/interfacebloat v1.1.0 // indirect
	github.com/sashamelentyev/usestdlibvars v1.24.0 // indirect
	github.com/securego/gosec/v2 v2.17.0 // indirect
	github.com/shazow/go-diff v0.0.0-20160112020656-b6b7b6733b8c // indirect
	github.com/sirupsen/logrus v1.9.3 // indirect
	github.com/sivchari/containedctx v1.0.3 // indirect
	github.com/sivchari/nosnakecase v1.7.0 // indirect
	github.com/sivchari/tenv v1.7.1 // indirect
	github.com/sonatard/noctx v0.0.2 // indirect
	github.com/sourcegraph/go-diff v0.7.0 // indirect
	github.com/spf13/afero v1.9.2 // indirect
	github.com/spf13/cast v1.5.0 // indirect
	github.com/spf13/cobra v1.7.0 // indirect
	github.com/spf13/jwalterweatherman v1.1.0 // indirect
	github.com/spf13/pflag v1.0.5 // indirect
	github.com/spf13/viper v1.12.0 // indirect
	github.com/ssgreg/nlreturn/v2 v2.2.1 // indirect
	github.com/stbenjam/no-sprintf-host-port v0.1.1 // indirect
	github.com/stretchr/objx v0.5.2 // indirect
	github.com/subosito/gotenv v1.4.1 // indirect
	github.com/t-yuki/gocover-cobertura v0.0.0-20180217150009-aaee18c8195c // indirect
	github.com/tdakkota/asciicheck v0.2.0 // indirect
	github.com/tetafro/godot v1.4.14 // indirect
	github.com/timakin/bodyclose v0.0.0-20230421092635-574207250966 // indirect
	github.com/timonwong/loggercheck v0.9.4 // indirect
	github.com/tomarrell/wrapcheck/v2 v2.8.1 // indirect
	github.com/tommy-muehle/go-mnd/v2 v2.5.1 // indirect
	github.com/ultraware/funlen v0.1.0 // indirect
	github.com/ultraware/whitespace v0.0.5 // indirect
	github.com/uudashr/gocognit v1.0.7 // indirect
	github.com/xen0n/gosmopolitan v1.2.1 // indirect
	github.com/yagipy/maintidx v1.0.0 // indirect
	github.com/yeya24/promlinter v0.2.0 // indirect
	github.com/ykadowak/zerologlint v0.1.3 // indirect
	gitlab.com/bosi/decorder v0.4.0 // indirect
	go.tmz.dev/musttag v0.7.2 // indirect
	go.uber.org/multierr v1.11.0 // indirect
	golang.org/x/exp v0.0.0-20230510235704-dd950f8aeaea // indirect
	golang.org/x/exp/typeparams v0.0.0-20230307190834-24139beb5833 // indirect
	golang.org/x/mod v0.17.0 // indirect
	golang.org/x/net v0.27.0 // indirect
	golang.org/x/oauth2 v0.21.0 // indirect
	golang.org/x/sync v0.7.0 // indirect
	golang.org/x/sys v0.22.0 // indirect
	golang.org/x/term v0.22.0 // indirect
	golang.org/x/text v0.16.0 // indirect
	golang.org/x/time v0.3.0 // indirect
	golang.org/x/tools v0.21.1-0.20240508182429-e35e4ccd0d2d // indirect
	google.golang.org/protobuf v1.34.2 // indirect
	gopkg.in/inf.v0 v0.9.1 // indirect
	gopkg.in/ini.v1 v1.67.0 // indirect
	gopkg.in/yaml.v2 v2.4.0 // indirect
	gopkg.in/yaml.v3 v3.0.1 // indirect
	honnef.co/go/tools v0.4.5 // indirect
	k8s.io/apiextensions-apiserver v0.28.3 // indirect
	k8s.io/gengo v0.0.0-20230829151522-9cce18d56c01 // indirect
	k8s.io/kube-openapi v0.0.0-20231010175941-2dd684a91f00 // indirect
	mvdan.cc/interfacer v0.0.0-20180901003855-c20040233aed // indirect
	mvdan.cc/lint v0.0.0-20170908181259-adc824a0674b // indirect
	mvdan.cc/unparam v0.0.0-20221223090309-7455f1af531d // indirect
	sigs.k8s.io/json v0.0.0-20221116044647-bc3834ca7abd // indirect
	sigs.k8s.io/structured-merge-diff/v4 v4.4.1 // indirect
	sigs.k8s.io/yaml v1.3.0 // indirect
)

replace github.com/prometheus/common => github.com/prometheus/common v0.56.0

require (
	github.com/prometheus/client_model v0.6.1
	sigs.k8s.io/node-ipam-controller v0.0.0
)

replace sigs.k8s.io/node-ipam-controller => /repo
